package rules

import (
	"fmt"
	"go/types"
	"sort"
	"strings"

	"golang.org/x/tools/go/ssa"

	"verif/checker/internal/core"
)

func init() {
	register(&Rule{
		ID:    "C13",
		Title: "Validator reshuffling is deterministic",
		Pkgs:  []string{"sharding"},
		Explain: "Decides that no map-iteration order and no other nondeterminism source can influence the result of reshuffling: in the cone of functions reachable (inside package sharding) from " +
			"randHashShuffler.UpdateNodeLists and indexHashedNodesCoordinator.EpochStartPrepare, every `range` over a map is classified effect by effect - writes to the cell of the range key, " +
			"commutative accumulation, min/max selection, deletes, slices that are sorted before any order-sensitive use, exits only on error - and anything else is reported as ORDER-SENSITIVE with the " +
			"loop, the effect and the variable. The cone is also scanned for time/rand/multi-way select. Exceptions are tabled per (function, effect kind) with a reason and, where possible, a verifier. " +
			"Go randomises map iteration, so any surviving order-sensitive effect makes two nodes compute different validator lists from equal inputs. " +
			"shuffleNodes writes nothing into memory reachable from a map or list field of its argument (it works on copies). " +
			"Every distribution step of shuffleNodes is preceded by createListsForAllShards on the working copy. " +
			"Not decided (value-level): that the hash-based shuffle itself is a function of its inputs' values only (it is pure code without maps; covered by the absence of nondeterminism sources).",
		Run: runC13,
	})
}

// orderException documents an effect the classifier flags but that cannot influence the result.
type orderException struct {
	fn, kind string
	detail   string // when set, the issue's description must contain it (narrows the exception to one location)
	reason   string
	verify   func(c *core.Ctx, fn *ssa.Function) (bool, string)
}

func pureSharding(d core.Desc) bool { return false }

// checkMapOrder runs the order classifier over the cone and records one obligation per map loop.
func checkMapOrder(c *core.Ctx, rule string, cone []*ssa.Function, exceptions []orderException) int {
	ea := core.NewEffectAnalyzer()
	n := 0
	// an exception written for a function also covers the unexported helpers extracted from it: a
	// function all of whose callers (inside the cone) are covered by the same exception owner
	callers := map[*ssa.Function][]*ssa.Function{}
	for _, fn := range cone {
		core.Instrs(fn, func(in ssa.Instruction) {
			if cc := core.CallOf(in); cc != nil && cc.StaticCallee() != nil && cc.StaticCallee() != fn {
				callers[cc.StaticCallee()] = append(callers[cc.StaticCallee()], fn)
			}
		})
	}
	var owner func(fn *ssa.Function, d int) *ssa.Function
	owner = func(fn *ssa.Function, d int) *ssa.Function {
		for _, ex := range exceptions {
			if ex.fn == fname(fn) {
				return fn
			}
		}
		if d > 2 || fn.Parent() != nil || ssaExported(fn) || len(callers[fn]) == 0 {
			return nil
		}
		var o *ssa.Function
		for _, cl := range callers[fn] {
			co := owner(cl, d+1)
			if co == nil || (o != nil && co != o) {
				return nil
			}
			o = co
		}
		return o
	}
	for _, fn := range cone {
		c.Analysed(core.QualName(fn))
		exOwner := owner(fn, 0)
		loops := core.MapLoops(fn)
		for i, ml := range loops {
			n++
			c.Sites++
			name := fmt.Sprintf("%s/maprange#%d(%s)", fname(fn), i, core.ExprKey(ml.Range.X))
			issues := ml.Issues(core.OrderOpts{EA: ea})
			var open []core.OrderIssue
			var notes []string
			for _, is := range issues {
				excused := false
				for _, ex := range exceptions {
					if exOwner != nil && ex.fn == fname(exOwner) && ex.kind == is.Kind && (ex.detail == "" || exOwner != fn || strings.Contains(is.Detail, ex.detail)) {
						ok, why := true, ""
						if ex.verify != nil {
							ok, why = ex.verify(c, exOwner)
						}
						if ok {
							excused = true
							notes = append(notes, fmt.Sprintf("exception(%s): %s %s", is.Kind, ex.reason, why))
						} else {
							is.Detail += " [exception verifier failed: " + why + "]"
						}
					}
				}
				if !excused {
					open = append(open, is)
				}
			}
			if len(open) == 0 {
				d := "every effect of the loop body is order-independent"
				for _, nt := range notes {
					d += "; " + nt
				}
				c.Pass(rule, name, ml.Range.Pos(), d)
				continue
			}
			sort.Slice(open, func(a, b int) bool { return open[a].Pos < open[b].Pos })
			for _, is := range open {
				c.Fail(rule, name+"/"+is.Kind, is.Pos, "ORDER-SENSITIVE: "+is.Detail)
			}
		}
	}
	return n
}

func checkNondet(c *core.Ctx, rule string, cone []*ssa.Function, allowed map[string]string) {
	for _, fn := range cone {
		for i, in := range core.NondetSources(fn) {
			name := fmt.Sprintf("%s/nondet#%d", fname(fn), i)
			if why, ok := allowed[fname(fn)]; ok {
				c.Pass(rule, name, in.Pos(), "exception: "+why)
				continue
			}
			c.Fail(rule, name, in.Pos(), "nondeterminism source in the cone: "+in.String())
		}
	}
	c.Pass(rule, "cone-scan", 0, fmt.Sprintf("%d functions scanned for time/rand/select", len(cone)))
}

func shardingCone(c *core.Ctx, entries [][2]string) []*ssa.Function {
	var es []*ssa.Function
	for _, e := range entries {
		if e[0] == "" {
			if f := anchorF(c, "sharding", e[1]); f != nil {
				es = append(es, f)
			}
		} else if f := anchorM(c, "sharding", e[0], e[1]); f != nil {
			es = append(es, f)
		}
	}
	return c.P.Cone(es, onlyPkgs("sharding"))
}

func runC13(c *core.Ctx) {
	c13WorkingCopyNormalised(c)
	c13ShuffleWorksOnCopies(c)
	cone := shardingCone(c, [][2]string{{"randHashShuffler", "UpdateNodeLists"}, {"indexHashedNodesCoordinator", "EpochStartPrepare"}})
	n := checkMapOrder(c, "C13/map-order-independent", cone, c13Exceptions)
	checkNondet(c, "C13/no-nondeterminism-source", cone, nil)
	checkSortComparators(c, "C13/sort-comparator-consistent", cone)
	c.Note("cone: %d functions, %d map-range loops", len(cone), n)
	c.Floor("C13/map-order-independent", 10)
}

var c13Exceptions = []orderException{
	{fn: "CrossShardValidatorDistributor.DistributeValidators", kind: "slice-in-map-order",
		reason: "the slice built in map order is consumed only by distributeValidators → shuffleList, which orders the validators by hash(pubkey‖randomness) before any use",
		verify: verifyShuffleListConsumer},
	{fn: "searchInMap", kind: "early-exit",
		reason: "existence search: returns the shard of the first list containing the key; a validator is in at most one shard list of the previous epoch (unique placement, property C16, assumed inductively), so at most one element can match"},
	{fn: "indexHashedNodesCoordinator.createPublicKeyToValidatorMap", kind: "map-store-nonunique-key",
		reason: "the key is the validator's public key; a public key occurs in at most one eligible/waiting list (unique placement, property C16, assumed inductively), so distinct iterations write distinct cells"},
}

// verifyShuffleListConsumer re-establishes, on every run, that the map-ordered slice of
// DistributeValidators only reaches shuffleList, and that shuffleList is insensitive to the order
// of its input: it reads the input only element-wise, keys each element by a value computed from
// the element, sorts the keys with sort.Strings and builds its result by looking the sorted keys up.
func verifyShuffleListConsumer(c *core.Ctx, fn *ssa.Function) (bool, string) {
	// V1: in DistributeValidators the slice's only post-loop use is argument 1 of distributeValidators
	dv := c.P.Func("sharding", "distributeValidators")
	sl := c.P.Func("sharding", "shuffleList")
	if dv == nil || sl == nil {
		return false, "distributeValidators/shuffleList not found"
	}
	c.Analysed(core.QualName(dv))
	c.Analysed(core.QualName(sl))
	calls := callsMatching(fn, "sharding", "", "distributeValidators")
	if len(calls) != 1 {
		return false, "DistributeValidators does not hand the slice to distributeValidators exactly once"
	}
	// V2: distributeValidators uses param 1 only as shuffleList's argument 0 (and len)
	if why := onlyUsedAs(dv.Params[1], func(in ssa.Instruction) bool {
		cc := core.CallOf(in)
		return cc != nil && cc.StaticCallee() == sl && cc.Args[0] == ssa.Value(dv.Params[1])
	}); why != "" {
		return false, "distributeValidators uses its validators parameter other than by passing it to shuffleList: " + why
	}
	// V3: shuffleList
	if why := onlyUsedAs(sl.Params[0], func(in ssa.Instruction) bool {
		_, ok := in.(*ssa.IndexAddr) // element reads
		return ok
	}); why != "" {
		return false, "shuffleList uses its input other than element-wise: " + why
	}
	var sorted ssa.Value
	for _, in := range core.CallsIn(sl, func(in ssa.Instruction, cc *ssa.CallCommon) bool { return core.CallDesc(cc).Is("sort", "", "Strings") }) {
		sorted = core.CallOf(in).Args[0]
	}
	if sorted == nil {
		return false, "shuffleList no longer sorts its keys with sort.Strings"
	}
	// every store into the returned slice takes its value from a map lookup indexed by an element of the sorted slice
	okRes := false
	bad := ""
	for _, r := range core.Returns(sl) {
		res := core.RetOperand(r, 0)
		core.Instrs(sl, func(in ssa.Instruction) {
			st, ok := in.(*ssa.Store)
			if !ok {
				return
			}
			ia, ok := st.Addr.(*ssa.IndexAddr)
			if !ok || ia.X != res {
				return
			}
			lk, ok := st.Val.(*ssa.Lookup)
			if !ok {
				bad = "a result element does not come from the key→validator map"
				return
			}
			u, ok := lk.Index.(*ssa.UnOp)
			if !ok {
				bad = "the result lookup is not indexed by a sorted key"
				return
			}
			ka, ok := u.X.(*ssa.IndexAddr)
			if !ok || ka.X != sorted {
				bad = "the result lookup is not indexed by an element of the slice given to sort.Strings"
				return
			}
			okRes = true
		})
	}
	if bad != "" || !okRes {
		return false, "shuffleList result is not built from the sorted keys: " + bad
	}
	return true, "(verified: sole consumer chain DistributeValidators→distributeValidators→shuffleList; shuffleList reads elements only, sorts keys with sort.Strings, builds the result by key lookup)"
}

// onlyUsedAs returns "" when every use of v is len/cap, a debug ref, or accepted by ok.
func onlyUsedAs(v ssa.Value, ok func(ssa.Instruction) bool) string {
	for _, r := range *v.Referrers() {
		if _, isDbg := r.(*ssa.DebugRef); isDbg {
			continue
		}
		if cc := core.CallOf(r); cc != nil {
			d := core.CallDesc(cc)
			if d.Pkg == "builtin" && (d.Name == "len" || d.Name == "cap") {
				continue
			}
		}
		if ok(r) {
			continue
		}
		return r.String()
	}
	return ""
}

// checkSortComparators: sort.Slice comparators in the cone index only the slice being sorted.
func checkSortComparators(c *core.Ctx, rule string, cone []*ssa.Function) {
	for _, fn := range cone {
		for i, sc := range core.SortCalls(fn) {
			name := fmt.Sprintf("%s/sort#%d", fname(fn), i)
			c.Check(len(sc.Foreign) == 0, rule, name, sc.In.Pos(), "the comparator indexes only the slice being sorted",
				fmt.Sprintf("the comparator indexes %v with its i/j parameters while another slice is being sorted: elements and keys go out of sync, the result depends on the input order", sc.Foreign))
		}
	}
}

// c13ShuffleWorksOnCopies: shuffleNodes computes the new lists on copies of the maps it is given;
// nothing it does writes into a map or list of its argument. A helper applied to the argument's own
// map instead of the copy (same type, one line apart) changes the caller's state and makes the
// working copy - hence the result - depend on how the caller happened to build its maps (a shard
// with nobody waiting present as an empty entry or absent).
func c13ShuffleWorksOnCopies(c *core.Ctx) {
	fn := anchorF(c, "sharding", "shuffleNodes")
	if fn == nil || len(fn.Params) == 0 {
		return
	}
	arg := ssa.Value(fn.Params[0])
	var roots []ssa.Value
	names := map[ssa.Value]string{}
	core.Instrs(fn, func(in ssa.Instruction) {
		v, ok := in.(ssa.Value)
		if !ok {
			return
		}
		base, f := core.FieldLoad(v)
		if f == nil {
			return
		}
		// the argument itself, or the cell it was spilled to
		isArg := base == arg
		if al, isAl := base.(*ssa.Alloc); isAl && al.Referrers() != nil {
			for _, r := range *al.Referrers() {
				if st, isSt := r.(*ssa.Store); isSt && st.Val == arg {
					isArg = true
				}
			}
		}
		if !isArg {
			return
		}
		switch f.Type().Underlying().(type) {
		case *types.Map, *types.Slice:
			roots = append(roots, v)
			names[v] = f.Name()
		}
	})
	if len(roots) < 3 {
		c.Undecided("C13/shuffle-works-on-copies", "shuffleNodes", fn.Pos(), fmt.Sprintf("expected the map/list fields of the argument to be read, found %d", len(roots)))
		return
	}
	ea := core.NewEffectAnalyzer()
	ord := map[string]int{}
	for _, r := range roots {
		ord[names[r]]++
		bad := ""
		for _, e := range ea.From(fn, []ssa.Value{r}) {
			if e.Write {
				bad = e.What + " at " + c.P.Pos(e.In.Pos())
			}
		}
		c.Check(bad == "", "C13/shuffle-works-on-copies", fmt.Sprintf("shuffleNodes/arg.%s#%d", names[r], ord[names[r]]), r.Pos(),
			"nothing reachable from this field of the argument is written",
			"shuffleNodes writes into its argument's "+names[r]+" ("+bad+"): the caller's map is changed and the working copy no longer has the shape the rest of the function assumes, so the outcome depends on how the caller built its maps")
	}
}

// c13WorkingCopyNormalised: shuffleNodes gives its working copy of the waiting map an entry for
// every shard and the metachain before anything is distributed: the outcome must not depend on
// whether the caller's map had an empty entry or no entry for a shard with nobody waiting.
func c13WorkingCopyNormalised(c *core.Ctx) {
	fn := anchorF(c, "sharding", "shuffleNodes")
	if fn == nil {
		return
	}
	norm := func(in ssa.Instruction) bool {
		cc := core.CallOf(in)
		return cc != nil && cc.StaticCallee() != nil && cc.StaticCallee().Name() == "createListsForAllShards"
	}
	n := 0
	core.Instrs(fn, func(in ssa.Instruction) {
		cc := core.CallOf(in)
		if cc == nil {
			return
		}
		name := core.CallDesc(cc).Name
		if name != "distributeValidators" && name != "DistributeValidators" && name != "moveMaxNumNodesToMap" {
			return
		}
		n++
		esc, path := core.PathQ{Fn: fn, Via: norm, Target: func(x ssa.Instruction, _ *ssa.BasicBlock) bool { return x == in }}.Escape()
		c.Check(esc == nil, "C13/working-copy-normalised", fmt.Sprintf("shuffleNodes/%s#%d", name, n), in.Pos(),
			"the waiting copy was given an entry for every shard before this distribution step",
			"shuffleNodes reaches "+name+" without createListsForAllShards on its working copy ("+c.P.PathString(path)+"): a shard with nobody waiting takes part in the distribution or not depending on how the caller built its map, so two nodes with the same validators compute different lists")
	})
	c.Floor("C13/working-copy-normalised", 3)
}
