// Package rules holds one file per claimed property: anchors, obligations and exception tables.
package rules

import (
	"sort"

	"verif/checker/internal/core"
)

// Rule is the static check of one property.
type Rule struct {
	ID      string
	Title   string
	Pkgs    []string // module-relative packages that must be loaded with syntax (quick tier)
	Explain string   // which clause is decided, by which rule; what is not decided
	Assume  []string
	Run     func(c *core.Ctx)
}

var registry = map[string]*Rule{}

func register(r *Rule) { registry[r.ID] = r }

// Get returns the rule of a property.
func Get(id string) *Rule { return registry[id] }

// IDs lists the claimed properties.
func IDs() []string {
	var out []string
	for id := range registry {
		out = append(out, id)
	}
	sort.Strings(out)
	return out
}
