package rules

import (
	"fmt"
	"go/token"
	"go/types"
	"strings"

	"golang.org/x/tools/go/ssa"

	"verif/checker/internal/core"
)

func init() {
	register(&Rule{
		ID:    "C03",
		Title: "Committed trie state is recoverable from its root hash",
		Pkgs:  []string{"data/trie"},
		Explain: "Decides necessary structural conditions of durability: (S1) in each node type's commitDirty, every success exit is either taken because the node was not dirty or has passed " +
			"encodeNodeAndCommitToDB(self, targetDb) with its error checked, and (branch/extension) has first invoked commitDirty on every non-nil child with the error checked " +
			"(branch: the loop over all children slots leaves only on exhaustion or error); (S2) encodeNodeAndCommitToDB stores, with a checked db.Put, the encoding of the node's own collapsed form " +
			"under the key returned by computeAndSetNodeHash of the same node; (S3) patriciaMerkleTrie.Commit returns nil only when the root is nil, not dirty, or root.commitDirty succeeded. " +
			"Breaking any of them leaves a reachable node out of the DB, so Recreate+traversal from the root hash fails. " +
			"Not decided (value-level): decode∘encode identity, behaviour of further updates on a recreated trie.",
		Run: runC03,
	})
}

func runC03(c *core.Ctx) {
	const pkg = "data/trie"
	for _, tn := range []string{"branchNode", "extensionNode", "leafNode"} {
		fn := anchorM(c, pkg, tn, "commitDirty")
		if fn == nil {
			continue
		}
		recv := receiverOf(fn)
		var targetDb *ssa.Parameter
		sig := fn.Signature
		// the DB the caller asked to commit into is the last parameter
		if n := sig.Params().Len(); n > 0 {
			targetDb = fn.Params[len(fn.Params)-1]
		}
		notDirty := core.PruneWhen(func(cd core.Cond) bool { return !cd.Taken && isRecvField(fn, cd.V, "dirty") })
		mustPassChecked(c, fn, "C03/commit-writes-node", tn+".commitDirty", nil,
			func(in ssa.Instruction, cc *ssa.CallCommon) bool {
				return core.CallDesc(cc).Is(pkg, "", "encodeNodeAndCommitToDB") && len(cc.Args) == 2 &&
					core.Strip(cc.Args[0]) == ssa.Value(recv) && cc.Args[1] == ssa.Value(targetDb)
			}, core.SuccessReturn, notDirty,
			"a dirty node is written by encodeNodeAndCommitToDB(self, targetDb) (error checked) before a success exit")

		switch tn {
		case "extensionNode":
			childNil := core.PruneWhen(func(cd core.Cond) bool {
				v, eq, ok := core.NilTest(cd.V)
				return ok && isRecvField(fn, v, "child") && eq == cd.Taken
			})
			prune := func(b *ssa.BasicBlock, s int) bool { return notDirty(b, s) || childNil(b, s) }
			mustPassChecked(c, fn, "C03/commit-children-first", tn+".commitDirty", nil,
				func(in ssa.Instruction, cc *ssa.CallCommon) bool {
					return cc.IsInvoke() && cc.Method.Name() == "commitDirty" && isRecvField(fn, cc.Value, "child")
				}, core.SuccessReturn, prune,
				"the non-nil child is committed (error checked) before a success exit")
		case "branchNode":
			c03BranchChildren(c, fn, notDirty)
		}
	}

	// S2: encodeNodeAndCommitToDB
	if fn := anchorF(c, pkg, "encodeNodeAndCommitToDB"); fn != nil {
		n := fn.Params[0]
		db := fn.Params[1]
		puts := core.CallsIn(fn, func(in ssa.Instruction, cc *ssa.CallCommon) bool {
			return cc.IsInvoke() && cc.Method.Name() == "Put" && cc.Value == ssa.Value(db)
		})
		for i, p := range puts {
			cc := core.CallOf(p)
			name := fmt.Sprintf("encodeNodeAndCommitToDB/Put#%d", i)
			keyOK, valOK := false, false
			// key: result 0 of computeAndSetNodeHash(n)
			if ex, ok := cc.Args[0].(*ssa.Extract); ok && ex.Index == 0 {
				if call, ok := ex.Tuple.(*ssa.Call); ok && core.CallDesc(&call.Call).Is(pkg, "", "computeAndSetNodeHash") && len(call.Call.Args) == 1 && call.Call.Args[0] == ssa.Value(n) {
					keyOK = true
				}
			}
			// value: getEncodedNode() of (getCollapsed() of n)
			if ex, ok := cc.Args[1].(*ssa.Extract); ok && ex.Index == 0 {
				if call, ok := ex.Tuple.(*ssa.Call); ok && call.Call.IsInvoke() && call.Call.Method.Name() == "getEncodedNode" {
					if ex2, ok := call.Call.Value.(*ssa.Extract); ok && ex2.Index == 0 {
						if call2, ok := ex2.Tuple.(*ssa.Call); ok && call2.Call.IsInvoke() && call2.Call.Method.Name() == "getCollapsed" && call2.Call.Value == ssa.Value(n) {
							valOK = true
						}
					}
				}
			}
			c.Check(keyOK, "C03/stored-under-own-hash", name+"/key", p.Pos(), "the DB key is computeAndSetNodeHash(n) of the node being stored", "the DB key is not the hash computed from the node being stored: the node is unreachable from its parent's reference")
			c.Check(valOK, "C03/stored-under-own-hash", name+"/value", p.Pos(), "the DB value is n.getCollapsed().getEncodedNode()", "the DB value is not the encoding of the node's own collapsed form")
		}
		mustPassChecked(c, fn, "C03/put-checked", "encodeNodeAndCommitToDB", nil,
			func(in ssa.Instruction, cc *ssa.CallCommon) bool {
				return cc.IsInvoke() && cc.Method.Name() == "Put" && cc.Value == ssa.Value(db)
			}, core.SuccessReturn, nil, "db.Put succeeds before encodeNodeAndCommitToDB reports success")
	}

	// S3: Commit
	if fn := anchorM(c, pkg, "patriciaMerkleTrie", "Commit"); fn != nil {
		prune := core.PruneWhen(func(cd core.Cond) bool {
			if v, eq, ok := core.NilTest(cd.V); ok && isRecvField(fn, v, "root") && eq == cd.Taken {
				return true // root == nil
			}
			if call, ok := cd.V.(*ssa.Call); ok && call.Call.IsInvoke() && call.Call.Method.Name() == "isDirty" && isRecvField(fn, call.Call.Value, "root") && !cd.Taken {
				return true // !root.isDirty()
			}
			return false
		})
		mustPassChecked(c, fn, "C03/commit-reaches-root", "patriciaMerkleTrie.Commit", nil,
			func(in ssa.Instruction, cc *ssa.CallCommon) bool {
				return cc.IsInvoke() && cc.Method.Name() == "commitDirty" && isRecvField(fn, cc.Value, "root")
			}, core.SuccessReturn, prune, "a dirty root is committed (error checked) before Commit returns nil")
	}
	c03ChildResolved(c)
	// a child exists if EITHER its pointer is loaded OR its hash is recorded (collapsed): code that counts a
	// branch's children to decide whether to reduce it must test both, or it discards collapsed (committed) siblings
	if fn := anchorF(c, pkg, "getChildPosition"); fn != nil {
		ok := false
		for _, b := range fn.Blocks {
			ifi, isIf := b.Instrs[len(b.Instrs)-1].(*ssa.If)
			if !isIf {
				continue
			}
			ptr, enc := false, false
			// the disjunction `children[i] != nil || len(EncodedChildren[i]) != 0` is lowered to two nested ifs or a phi
			conds := []ssa.Value{ifi.Cond}
			for _, s2 := range b.Succs {
				if i2, ok2 := s2.Instrs[len(s2.Instrs)-1].(*ssa.If); ok2 {
					conds = append(conds, i2.Cond)
				}
			}
			for _, cv := range conds {
				for _, d := range core.Disjuncts(cv) {
					k := core.ExprKey(d)
					if strings.Contains(k, ".children[") && strings.Contains(k, "nil") {
						ptr = true
					}
					if strings.Contains(k, "len(") && strings.Contains(k, ".EncodedChildren[") {
						enc = true
					}
				}
			}
			if ptr && enc {
				ok = true
			}
		}
		c.Check(ok, "C03/collapsed-children-count", "getChildPosition", fn.Pos(), "a child slot counts as occupied when its pointer is set OR its encoded hash is present",
			"getChildPosition does not count collapsed children (EncodedChildren): on a recreated trie a delete reduces a branch that still has committed siblings, dropping them")
	}
	c.Floor("C03/commit-writes-node", 3)
	c.Floor("C03/commit-children-first", 2)
	c.Floor("C03/stored-under-own-hash", 2)
}

// c03BranchChildren: the loop that commits children visits every slot.
func c03BranchChildren(c *core.Ctx, fn *ssa.Function, notDirty pruneFn) {
	const rule = "C03/commit-children-first"
	name := "branchNode.commitDirty"
	var loop *core.Loop
	var callIn ssa.Instruction
	for _, in := range core.CallsIn(fn, func(in ssa.Instruction, cc *ssa.CallCommon) bool {
		return cc.IsInvoke() && cc.Method.Name() == "commitDirty"
	}) {
		cc := core.CallOf(in)
		if idx := recvArrayElemIndex(fn, cc.Value, "children"); idx != nil {
			if l := core.InnermostLoop(fn, in.Block()); l != nil {
				loop = l
				callIn = in
			}
		}
	}
	if loop == nil {
		c.Fail(rule, name, fn.Pos(), "no loop invoking children[i].commitDirty found")
		return
	}
	// the loop covers all slots: header compares the induction variable with the array length
	arrLen := int64(-1)
	if f := findFieldDeep(namedElem(receiverOf(fn).Type()), "children"); f != nil {
		if a, ok := f.Type().Underlying().(*types.Array); ok {
			arrLen = a.Len()
		}
	}
	full := false
	for _, in := range loop.Header.Instrs {
		if b, ok := in.(*ssa.BinOp); ok && b.Op == token.LSS {
			if n, ok := core.ConstInt(b.Y); ok && n == arrLen {
				full = true
			}
			if call, ok := b.Y.(*ssa.Call); ok {
				if bi, ok := call.Call.Value.(*ssa.Builtin); ok && bi.Name() == "len" {
					full = true
				}
			}
		}
	}
	if !full {
		c.Fail(rule, name, callIn.Pos(), "the loop committing children is not bounded by the number of child slots")
		return
	}
	if bad := loopComplete(c, loop, nil); bad != "" {
		c.Fail(rule, name, callIn.Pos(), bad+": remaining children are not committed")
		return
	}
	// inside the body: every iteration commits the child unless it is nil
	var body *ssa.BasicBlock
	for _, s := range loop.Header.Succs {
		if loop.Body[s] {
			body = s
		}
	}
	cv := core.NewCheckedVia(fn, func(in ssa.Instruction, cc *ssa.CallCommon) bool { return in == callIn })
	childNil := core.PruneWhen(func(cd core.Cond) bool {
		v, eq, ok := core.NilTest(cd.V)
		return ok && recvArrayElemIndex(fn, v, "children") != nil && eq == cd.Taken
	})
	q := core.PathQ{Fn: fn, FromBlk: body, Via: cv.Via, ViaEdge: cv.ViaEdge, Prune: childNil,
		Target: func(in ssa.Instruction, pred *ssa.BasicBlock) bool {
			return in.Block() == loop.Header && in == loop.Header.Instrs[0]
		}}
	if len(cv.Unhandled) > 0 {
		c.Fail(rule, name, callIn.Pos(), "the error of children[i].commitDirty is not checked")
		return
	}
	if esc, path := q.Escape(); esc != nil {
		c.Fail(rule, name, callIn.Pos(), "an iteration can skip a non-nil child without committing it: "+c.P.PathString(path))
		return
	}
	// the success exit passes the loop's exhaustion edge
	exh := map[[2]int]bool{}
	for i, s := range loop.Header.Succs {
		if !loop.Body[s] {
			exh[[2]int{loop.Header.Index, i}] = true
		}
	}
	q2 := core.PathQ{Fn: fn, ViaEdge: func(b *ssa.BasicBlock, s int) bool { return exh[[2]int{b.Index, s}] }, Prune: notDirty, Target: core.SuccessReturn}
	if esc, path := q2.Escape(); esc != nil {
		c.Fail(rule, name, esc.Pos(), "a success exit of a dirty node is reachable without running the children loop to exhaustion: "+c.P.PathString(path))
		return
	}
	c.Pass(rule, name, callIn.Pos(), "every non-nil child slot is committed (error checked) before the success exit")
}

// recvArrayElemIndex recognises a load of recv.<field>[i] and returns i.
func recvArrayElemIndex(fn *ssa.Function, v ssa.Value, field string) ssa.Value {
	u, ok := v.(*ssa.UnOp)
	if !ok || u.Op != token.MUL {
		return nil
	}
	ia, ok := u.X.(*ssa.IndexAddr)
	if !ok {
		return nil
	}
	fa, ok := ia.X.(*ssa.FieldAddr)
	if !ok {
		return nil
	}
	f := core.FieldOfAddr(fa)
	r := receiverOf(fn)
	if f == nil || f.Name() != field || r == nil || rootBase(fa.X) != ssa.Value(r) {
		return nil
	}
	return ia.Index
}

// c03ChildResolved: "a child pointer that is handed on was first resolved". After Recreate (or a
// commit that collapses nodes) a node holds only the HASH of its children; the pointers are nil
// until resolveIfCollapsed loads them. A mutating operation that re-attaches recv.child /
// recv.children[i] to another node, or calls a method on it, without a (checked) resolve on the
// same receiver first - in the function itself or at every package-local call site of it - drops
// the committed subtree of a recreated trie while behaving correctly on a fully in-memory one.
// Loads that are explicitly tested against nil are exempt (the code handles the collapsed case).
func c03ChildResolved(c *core.Ctx) {
	const pkg = "data/trie"
	const rule = "C03/child-resolved-before-use"
	fns := c.P.FuncsOfPkg(pkg)
	callers := map[*ssa.Function][]ssa.Instruction{}
	for _, f := range fns {
		core.Instrs(f, func(in ssa.Instruction) {
			if cc := core.CallOf(in); cc != nil {
				if g := cc.StaticCallee(); g != nil && g.Blocks != nil {
					callers[g] = append(callers[g], in)
				}
			}
		})
	}
	isResolve := func(recv ssa.Value) func(in ssa.Instruction, cc *ssa.CallCommon) bool {
		return func(in ssa.Instruction, cc *ssa.CallCommon) bool {
			d := core.CallDesc(cc)
			if d.Name == "resolveIfCollapsed" && len(cc.Args) > 0 && core.Strip(cc.Args[0]) == recv {
				return true
			}
			if d.Name == "resolveCollapsed" && len(cc.Args) > 0 && core.Strip(cc.Args[0]) == recv {
				return true
			}
			return false
		}
	}
	var resolvedAt func(f *ssa.Function, at ssa.Instruction, depth int) bool
	resolvedAt = func(f *ssa.Function, at ssa.Instruction, depth int) bool {
		recv := receiverOf(f)
		if recv == nil {
			return false
		}
		cv := core.NewCheckedVia(f, isResolve(recv))
		if len(cv.Calls) > 0 && len(cv.Unhandled) == 0 {
			q := core.PathQ{Fn: f, Via: cv.Via, ViaEdge: cv.ViaEdge, Target: func(in ssa.Instruction, _ *ssa.BasicBlock) bool { return in == at }}
			if esc, _ := q.Escape(); esc == nil {
				return true
			}
		}
		if depth >= 2 {
			return false
		}
		if len(callers[f]) == 0 {
			// reached through the node interface: every invoke site in the package must have resolved the receiver it calls
			n := 0
			for _, g := range fns {
				ok := true
				core.Instrs(g, func(in ssa.Instruction) {
					cc := core.CallOf(in)
					if cc == nil || !cc.IsInvoke() || cc.Method.Name() != f.Name() {
						return
					}
					n++
					key := core.ExprKey(cc.Value)
					cvI := core.NewCheckedVia(g, func(i2 ssa.Instruction, c2 *ssa.CallCommon) bool {
						return core.CallDesc(c2).Name == "resolveIfCollapsed" && len(c2.Args) > 0 && core.ExprKey(core.Strip(c2.Args[0])) == key
					})
					q := core.PathQ{Fn: g, Via: cvI.Via, ViaEdge: cvI.ViaEdge, Target: func(i2 ssa.Instruction, _ *ssa.BasicBlock) bool { return i2 == in }}
					if esc, _ := q.Escape(); esc != nil || len(cvI.Calls) == 0 || len(cvI.Unhandled) > 0 {
						ok = false
					}
				})
				if !ok {
					return false
				}
			}
			return n > 0
		}
		for _, cs := range callers[f] {
			cc := core.CallOf(cs)
			g := cs.Parent()
			if len(cc.Args) == 0 || receiverOf(g) == nil || core.Strip(cc.Args[0]) != ssa.Value(receiverOf(g)) {
				return false
			}
			if !resolvedAt(g, cs, depth+1) {
				return false
			}
		}
		return true
	}
	mutators := map[string]bool{"insert": true, "delete": true, "insertInSameEn": true, "insertInNewBn": true, "insertOnExistingChild": true, "insertOnNilChild": true, "reduceNode": true}
	n := 0
	for _, f := range fns {
		recv := receiverOf(f)
		if recv == nil || !mutators[f.Name()] {
			continue
		}
		k := 0
		tn := namedElem(recv.Type())
		if tn == nil || (tn.Obj().Name() != "extensionNode" && tn.Obj().Name() != "branchNode") {
			continue
		}
		core.Instrs(f, func(in ssa.Instruction) {
			ld, ok := in.(*ssa.UnOp)
			if !ok {
				return
			}
			isChild := isRecvField(f, ld, "child") || recvArrayElemIndex(f, ld, "children") != nil
			if !isChild {
				return
			}
			// how is the loaded child used?
			handedOn := ""
			for _, r := range *ld.Referrers() {
				switch x := r.(type) {
				case *ssa.Call:
					if x.Call.IsInvoke() && x.Call.Value == ssa.Value(ld) {
						handedOn = "method " + x.Call.Method.Name() + " called on it"
					}
					for _, a := range x.Call.Args {
						if core.Strip(a) == ssa.Value(ld) && strings.HasPrefix(core.CallDesc(&x.Call).Name, "new") {
							handedOn = "passed to " + core.CallDesc(&x.Call).Name
						}
					}
				case *ssa.Store:
					if x.Val == ssa.Value(ld) && rootBase(rootOfAddr(x.Addr)) != ssa.Value(recv) {
						handedOn = "stored into another node"
					}
				case *ssa.MakeInterface:
					for _, rr := range *x.Referrers() {
						if st, ok := rr.(*ssa.Store); ok && rootBase(rootOfAddr(st.Addr)) != ssa.Value(recv) {
							handedOn = "stored into another node"
						}
						if call, ok := rr.(*ssa.Call); ok && strings.HasPrefix(core.CallDesc(&call.Call).Name, "new") {
							handedOn = "passed to " + core.CallDesc(&call.Call).Name
						}
					}
				}
			}
			if handedOn == "" {
				return
			}
			n++
			k++
			c.Sites++
			name := fmt.Sprintf("%s/child-use#%d(%s)", fname(f), k, handedOn)
			c.Check(resolvedAt(f, ld, 0), rule, name, ld.Pos(), "a checked resolveIfCollapsed on the node precedes this use (here or at every call site)",
				"the child pointer is "+handedOn+" without a preceding checked resolveIfCollapsed on this node: on a recreated/collapsed trie the pointer is nil and the committed subtree is dropped")
		})
	}
	c.Floor(rule, 4)
}

func rootOfAddr(a ssa.Value) ssa.Value {
	for {
		switch x := a.(type) {
		case *ssa.FieldAddr:
			a = x.X
		case *ssa.IndexAddr:
			a = x.X
		default:
			return a
		}
	}
}
