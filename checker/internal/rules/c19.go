package rules

import (
	"fmt"
	"go/token"
	"go/types"
	"sort"
	"strings"

	"golang.org/x/tools/go/ssa"

	"verif/checker/internal/core"
)

func init() {
	register(&Rule{
		ID:    "C19",
		Title: "A block body is accepted only if it matches its header",
		Pkgs:  []string{"process/block"},
		Explain: "Decides the writer/reader field agreement between header construction and the correlation check: every field of block.MiniBlockHeader that createMiniBlockHeaders populates from the body " +
			"(today Hash, SenderShardID, ReceiverShardID, TxCount, Type; a new field creates a new obligation automatically) is compared in checkHeaderBodyCorrelation by a test whose failing branch leads only to " +
			"error returns (Hash: used as the lookup key whose `ok` is tested), against the corresponding quantity of the body miniblock; and a success exit lies behind the test that the NUMBER OF HEADER ENTRIES " +
			"(len of the header slice, not of a de-duplicated index) equals the number of body miniblocks. A field that is populated but never compared lets a header announce something else than the body contains. " +
			"Not decided: multiplicity ('exactly one' body miniblock per header entry - header [A,B] with body [A,A] is not excluded by any idiom-independent structural rule).",
		Run: runC19,
	})
}

func runC19(c *core.Ctx) {
	const pkg = "process/block"
	mk := anchorM(c, pkg, "baseProcessor", "createMiniBlockHeaders")
	ck := anchorM(c, pkg, "baseProcessor", "checkHeaderBodyCorrelation")
	if mk == nil || ck == nil {
		return
	}
	mbh := c.P.Named("data/block", "MiniBlockHeader")
	if mbh == nil {
		c.Undecided("anchor", "block.MiniBlockHeader", token.NoPos, "type not found")
		return
	}
	isMBHField := func(f *types.Var) bool {
		st := mbh.Underlying().(*types.Struct)
		for i := 0; i < st.NumFields(); i++ {
			if st.Field(i) == f {
				return true
			}
		}
		return false
	}
	// W: fields written in createMiniBlockHeaders
	written := map[*types.Var]bool{}
	core.Instrs(mk, func(in ssa.Instruction) {
		st, ok := in.(*ssa.Store)
		if !ok {
			return
		}
		if fa, ok := st.Addr.(*ssa.FieldAddr); ok {
			if f := core.FieldOfAddr(fa); f != nil && isMBHField(f) {
				written[f] = true
			}
		}
	})
	// R: fields whose value feeds a test with an error-only branch in checkHeaderBodyCorrelation
	compared := map[*types.Var]string{}
	for _, b := range ck.Blocks {
		ifi, ok := b.Instrs[len(b.Instrs)-1].(*ssa.If)
		if !ok {
			continue
		}
		errBranch := false
		for i, s := range b.Succs {
			_ = i
			if core.OnlyErrorReturnsFrom(s, b, nil) {
				errBranch = true
			}
		}
		if !errBranch {
			continue
		}
		c.Sites++
		reach := core.BackwardReach(ifi.Cond)
		for v := range reach {
			if _, f := core.FieldLoad(v); f != nil && isMBHField(f) {
				// the other operand must come from the body miniblock (p2)
				fromBody := false
				for w := range reach {
					if strings.HasPrefix(core.ExprKey(w), "p2") {
						fromBody = true
					}
				}
				if fromBody {
					compared[f] = c.P.Pos(ifi.Pos())
				}
			}
			// lookup `ok` of a map keyed by a header field
			if ex, ok := v.(*ssa.Extract); ok && ex.Index == 1 {
				if lk, ok := ex.Tuple.(*ssa.Lookup); ok && lk.CommaOk {
					core.Instrs(ck, func(in ssa.Instruction) {
						if mu, ok := in.(*ssa.MapUpdate); ok && mu.Map == lk.X {
							for kv := range core.BackwardReach(mu.Key) {
								if _, f := core.FieldLoad(kv); f != nil && isMBHField(f) {
									// the lookup key derives from the body miniblock
									for w := range core.BackwardReach(lk.Index) {
										if strings.HasPrefix(core.ExprKey(w), "p2") {
											compared[f] = c.P.Pos(ifi.Pos())
										}
									}
								}
							}
						}
					})
				}
			}
		}
	}
	var names []string
	byName := map[string]*types.Var{}
	for f := range written {
		names = append(names, f.Name())
		byName[f.Name()] = f
	}
	sort.Strings(names)
	for _, n := range names {
		at, ok := compared[byName[n]]
		c.Check(ok, "C19/header-fields-compared", "MiniBlockHeader."+n, ck.Pos(),
			"populated by createMiniBlockHeaders and compared with the body miniblock at "+at,
			"MiniBlockHeader."+n+" is populated from the body by createMiniBlockHeaders but never compared in checkHeaderBodyCorrelation: a header entry announcing a different "+n+" than its miniblock is accepted")
	}
	c.Floor("C19/header-fields-compared", 5)

	// count guard
	okLen := false
	for _, r := range core.Returns(ck) {
		if !core.NilReturn(r, nil) {
			continue
		}
		okLen = false
		for _, f := range core.FactsAt(r.Block()) {
			if f.Op == "==" && ((f.A == "len(p1)" && strings.HasPrefix(f.B, "len(p2")) || (f.B == "len(p1)" && strings.HasPrefix(f.A, "len(p2"))) {
				okLen = true
			}
		}
		if !okLen {
			break
		}
	}
	c.Check(okLen, "C19/same-number-of-miniblocks", "baseProcessor.checkHeaderBodyCorrelation", ck.Pos(),
		"success only when len(miniBlockHeaders) == len(body.MiniBlocks)",
		"a success exit is not dominated by `len(miniBlockHeaders) == len(body.MiniBlocks)` on the header slice itself: a header listing an entry twice (or more entries than the body has) is accepted")
	_ = fmt.Sprint
}
