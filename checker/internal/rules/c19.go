package rules

import (
	"fmt"
	"go/token"
	"go/types"
	"sort"
	"strings"

	"golang.org/x/tools/go/ssa"

	"verif/checker/internal/core"
)

func init() {
	register(&Rule{
		ID:    "C19",
		Title: "A block body is accepted only if it matches its header",
		Pkgs:  []string{"process/block"},
		Explain: "Decides the writer/reader field agreement between header construction and the correlation check: every field of block.MiniBlockHeader that createMiniBlockHeaders populates from the body " +
			"(today Hash, SenderShardID, ReceiverShardID, TxCount, Type; a new field creates a new obligation automatically) is compared in checkHeaderBodyCorrelation by a test whose failing branch leads only to " +
			"error returns (Hash: used as the lookup key whose `ok` is tested), against the corresponding quantity of the body miniblock; and a success exit lies behind the test that the NUMBER OF HEADER ENTRIES " +
			"(len of the header slice, not of a de-duplicated index) equals the number of body miniblocks. A field that is populated but never compared lets a header announce something else than the body contains. " +
			"Multiplicity ('exactly one'): in the body loop, every path from the header-index lookup to the next iteration updates (MapUpdate/delete) a map whose lookup guards an error exit of that loop - without a loop-carried update the per-miniblock tests are independent and body [A,A] passes for header [A,B].",
		Run: runC19,
	})
}

func runC19(c *core.Ctx) {
	const pkg = "process/block"
	mk := anchorM(c, pkg, "baseProcessor", "createMiniBlockHeaders")
	ck := anchorM(c, pkg, "baseProcessor", "checkHeaderBodyCorrelation")
	if mk == nil || ck == nil {
		return
	}
	mbh := c.P.Named("data/block", "MiniBlockHeader")
	if mbh == nil {
		c.Undecided("anchor", "block.MiniBlockHeader", token.NoPos, "type not found")
		return
	}
	isMBHField := func(f *types.Var) bool {
		st := mbh.Underlying().(*types.Struct)
		for i := 0; i < st.NumFields(); i++ {
			if st.Field(i) == f {
				return true
			}
		}
		return false
	}
	// W: fields written in createMiniBlockHeaders
	written := map[*types.Var]bool{}
	writers := []*ssa.Function{mk}
	core.Instrs(mk, func(in ssa.Instruction) {
		// the entry may be built by a function of the package that createMiniBlockHeaders calls
		if cc := core.CallOf(in); cc != nil && cc.StaticCallee() != nil && cc.StaticCallee().Blocks != nil && cc.StaticCallee().Pkg == mk.Pkg && cc.StaticCallee() != mk {
			writers = append(writers, cc.StaticCallee())
		}
	})
	for _, w := range writers {
		core.Instrs(w, func(in ssa.Instruction) {
			st, ok := in.(*ssa.Store)
			if !ok {
				return
			}
			if fa, ok := st.Addr.(*ssa.FieldAddr); ok {
				if f := core.FieldOfAddr(fa); f != nil && isMBHField(f) {
					written[f] = true
					if w != mk {
						c.Analysed(fname(w))
					}
				}
			}
		})
	}
	// R: fields whose value feeds a test with an error-only branch in checkHeaderBodyCorrelation. A test may
	// be delegated to a boolean helper of the package (`if !matches(hdr, mb) { return err }`): the helper's
	// tests whose branch leads only to the refusing answer count, its parameters standing for the arguments;
	// the index map may likewise be built by a helper that returns it.
	compared := map[*types.Var]string{}
	var scan func(fn *ssa.Function, body map[ssa.Value]bool, fail func(s, b *ssa.BasicBlock) bool, retFail *bool, depth int)
	scan = func(fn *ssa.Function, body map[ssa.Value]bool, fail func(s, b *ssa.BasicBlock) bool, retFail *bool, depth int) {
		fromBody := func(reach map[ssa.Value]bool) bool {
			for w := range reach {
				if body[w] {
					return true
				}
			}
			return false
		}
		mapUpdatesOf := func(m ssa.Value) (out []*ssa.MapUpdate) {
			core.Instrs(fn, func(in ssa.Instruction) {
				if mu, ok := in.(*ssa.MapUpdate); ok && mu.Map == m {
					out = append(out, mu)
				}
			})
			if call, ok := m.(*ssa.Call); ok {
				if h := call.Call.StaticCallee(); h != nil && h.Blocks != nil && h.Pkg == ck.Pkg {
					for _, r := range core.Returns(h) {
						rv := core.RetOperand(r, 0)
						core.Instrs(h, func(in ssa.Instruction) {
							if mu, ok := in.(*ssa.MapUpdate); ok && mu.Map == rv {
								out = append(out, mu)
							}
						})
					}
					c.Analysed(fname(h))
				}
			}
			return out
		}
		atom := func(at atomVal, pos token.Pos) {
			reach := core.BackwardReach(at.v)
			mismatch := false
			if bo, ok := at.v.(*ssa.BinOp); ok {
				mismatch = (bo.Op == token.NEQ && at.val) || (bo.Op == token.EQL && !at.val)
			}
			for v := range reach {
				if _, f := core.FieldLoad(v); f != nil && isMBHField(f) && mismatch {
					// the other operand must come from the body miniblock
					if fromBody(reach) {
						compared[f] = c.P.Pos(pos)
					}
				}
				// presence in a map keyed by a header field, looked up by a key derived from the body miniblock
				if lk, ok := v.(*ssa.Lookup); ok {
					if _, isMap := lk.X.Type().Underlying().(*types.Map); !isMap {
						continue
					}
					for _, mu := range mapUpdatesOf(lk.X) {
						for kv := range core.BackwardReach(mu.Key) {
							if _, f := core.FieldLoad(kv); f != nil && isMBHField(f) && fromBody(core.BackwardReach(lk.Index)) {
								compared[f] = c.P.Pos(pos)
							}
						}
					}
				}
			}
			// a boolean helper decides: its refusing answer is the one that takes this branch
			if call, ok := at.v.(*ssa.Call); ok && depth < 2 {
				h := call.Call.StaticCallee()
				if h == nil || h.Blocks == nil || h.Pkg != ck.Pkg || h.Signature.Results().Len() != 1 {
					return
				}
				if bt, isB := h.Signature.Results().At(0).Type().Underlying().(*types.Basic); !isB || bt.Kind() != types.Bool {
					return
				}
				hb := map[ssa.Value]bool{}
				for i, p := range h.Params {
					if i < len(call.Call.Args) && (body[call.Call.Args[i]] || fromBody(core.BackwardReach(call.Call.Args[i]))) {
						hb[p] = true
					}
				}
				c.Analysed(fname(h))
				val := at.val
				scan(h, hb, func(s, b *ssa.BasicBlock) bool { return onlyConstBoolReturnsFrom(s, val) }, &val, depth+1)
			}
		}
		for _, b := range fn.Blocks {
			switch last := b.Instrs[len(b.Instrs)-1].(type) {
			case *ssa.If:
				hit := false
				for si, sblk := range b.Succs {
					if !fail(sblk, b) {
						continue
					}
					hit = true
					for _, at := range impliedBy(last.Cond, si == 0, 0) {
						atom(at, last.Pos())
					}
				}
				if hit {
					c.Sites++
				}
			case *ssa.Return:
				// `return a == b && ...`: the refusing answer implies one of the atoms
				if retFail != nil && len(last.Results) == 1 {
					if _, isC := last.Results[0].(*ssa.Const); !isC {
						for _, at := range impliedBy(last.Results[0], *retFail, 0) {
							atom(at, last.Pos())
						}
					}
				}
			}
		}
	}
	scan(ck, map[ssa.Value]bool{ck.Params[2]: true}, func(s, b *ssa.BasicBlock) bool { return core.OnlyErrorReturnsFrom(s, b, nil) }, nil, 0)
	var names []string
	byName := map[string]*types.Var{}
	for f := range written {
		names = append(names, f.Name())
		byName[f.Name()] = f
	}
	sort.Strings(names)
	for _, n := range names {
		at, ok := compared[byName[n]]
		c.Check(ok, "C19/header-fields-compared", "MiniBlockHeader."+n, ck.Pos(),
			"populated by createMiniBlockHeaders and compared with the body miniblock at "+at,
			"MiniBlockHeader."+n+" is populated from the body by createMiniBlockHeaders but never compared in checkHeaderBodyCorrelation: a header entry announcing a different "+n+" than its miniblock is accepted")
	}
	c.Floor("C19/header-fields-compared", 5)

	// count guard
	okLen := false
	for _, r := range core.Returns(ck) {
		if !core.NilReturn(r, nil) {
			continue
		}
		okLen = false
		for _, f := range core.FactsAt(r.Block()) {
			if f.Op == "==" && ((f.A == "len(p1)" && strings.HasPrefix(f.B, "len(p2")) || (f.B == "len(p1)" && strings.HasPrefix(f.A, "len(p2"))) {
				okLen = true
			}
		}
		if !okLen {
			break
		}
	}
	c.Check(okLen, "C19/same-number-of-miniblocks", "baseProcessor.checkHeaderBodyCorrelation", ck.Pos(),
		"success only when len(miniBlockHeaders) == len(body.MiniBlocks)",
		"a success exit is not dominated by `len(miniBlockHeaders) == len(body.MiniBlocks)` on the header slice itself: a header listing an entry twice (or more entries than the body has) is accepted")
	_ = fmt.Sprint

	// the check is applied: no block (start-of-epoch metablocks included) is processed successfully
	// without its body having been compared with its header
	for _, typ := range []string{"shardProcessor", "metaProcessor"} {
		pb := anchorM(c, pkg, typ, "ProcessBlock")
		if pb == nil {
			continue
		}
		c.Analysed(fname(pb))
		mustPassChecked(c, pb, "C19/process-block-checks-correlation", typ+".ProcessBlock", nil,
			func(in ssa.Instruction, cc *ssa.CallCommon) bool { return cc.StaticCallee() == ck },
			core.SuccessReturn, nil, "every exit of ProcessBlock that can report success lies behind checkHeaderBodyCorrelation(header's miniblock headers, body) == nil")
	}
	c.Floor("C19/process-block-checks-correlation", 2)

	// multiplicity: a per-element test against a loop-invariant index cannot tell body [A, A] from
	// body [A, B]; together with the count test, "each header entry matched by exactly one body
	// miniblock" needs every matched iteration of the body loop to consume what it matched
	type guardMap struct {
		m  ssa.Value
		lk *ssa.Lookup
	}
	nLoops := 0
	for _, l := range core.Loops(ck) {
		var guards []guardMap
		var takes []*ssa.Call
		for _, b := range ck.Blocks {
			if !l.Body[b] {
				continue
			}
			ifi, ok := b.Instrs[len(b.Instrs)-1].(*ssa.If)
			if !ok {
				continue
			}
			errBranch := false
			for _, s := range b.Succs {
				if core.OnlyErrorReturnsFrom(s, b, nil) {
					errBranch = true
				}
			}
			if !errBranch {
				continue
			}
			for v := range core.BackwardReachPure(ifi.Cond) {
				if lk, ok := v.(*ssa.Lookup); ok && l.Body[lk.Block()] {
					if _, isMap := lk.X.Type().Underlying().(*types.Map); isMap {
						guards = append(guards, guardMap{lk.X, lk})
					}
				}
				// "take one": a function of the package handed the index, whose answer guards this error exit and
				// which - judged on its own paths - updates the index it looked up before it answers "found"
				var call *ssa.Call
				switch t := v.(type) {
				case *ssa.Call:
					call = t
				case *ssa.Extract:
					call, _ = t.Tuple.(*ssa.Call)
				}
				if call == nil || !l.Body[call.Block()] || call.Call.StaticCallee() == nil || call.Call.StaticCallee().Blocks == nil || call.Call.StaticCallee().Pkg != ck.Pkg {
					continue
				}
				h := call.Call.StaticCallee()
				for pi, p := range h.Params {
					if _, isMap := p.Type().Underlying().(*types.Map); !isMap || pi >= len(call.Call.Args) {
						continue
					}
					var lks []*ssa.Lookup
					core.Instrs(h, func(in ssa.Instruction) {
						if lk, ok := in.(*ssa.Lookup); ok && lk.X == ssa.Value(p) {
							lks = append(lks, lk)
						}
					})
					if len(lks) == 0 {
						continue
					}
					updates := func(in ssa.Instruction) bool {
						if mu, ok := in.(*ssa.MapUpdate); ok {
							return mu.Map == ssa.Value(p)
						}
						if dc, ok := in.(*ssa.Call); ok {
							if bi, ok := dc.Call.Value.(*ssa.Builtin); ok && bi.Name() == "delete" && len(dc.Call.Args) > 0 {
								return dc.Call.Args[0] == ssa.Value(p)
							}
						}
						return false
					}
					// every return that does not answer a constant "not found" lies behind an update
					esc, _ := core.PathQ{Fn: h, From: lks[0], Via: updates, Target: func(in ssa.Instruction, _ *ssa.BasicBlock) bool {
						r, ok := in.(*ssa.Return)
						if !ok {
							return false
						}
						for i := range r.Results {
							if b, isC := core.ConstBool(core.RetOperand(r, i)); isC && !b {
								return false
							}
						}
						return true
					}}.Escape()
					if esc == nil {
						takes = append(takes, call)
						c.Analysed(fname(h))
					}
				}
			}
		}
		if len(guards) == 0 && len(takes) > 0 {
			nLoops++
			c.Pass("C19/each-entry-matched-once", "baseProcessor.checkHeaderBodyCorrelation", takes[0].Pos(),
				"every iteration of the body loop takes its entry out of the index through "+takes[0].Call.StaticCallee().Name()+", which updates the index before it answers found")
			continue
		}
		if len(guards) == 0 {
			continue
		}
		nLoops++
		sort.Slice(guards, func(i, j int) bool { return guards[i].lk.Pos() < guards[j].lk.Pos() })
		isGuardMap := func(m ssa.Value) bool {
			for _, g := range guards {
				if g.m == m {
					return true
				}
			}
			return false
		}
		consumes := func(in ssa.Instruction) bool {
			if !l.Body[in.Block()] {
				return false
			}
			if mu, ok := in.(*ssa.MapUpdate); ok {
				return isGuardMap(mu.Map)
			}
			if call, ok := in.(*ssa.Call); ok {
				if bi, ok := call.Call.Value.(*ssa.Builtin); ok && bi.Name() == "delete" && len(call.Call.Args) > 0 {
					return isGuardMap(call.Call.Args[0])
				}
			}
			return false
		}
		first := guards[0].lk
		esc, path := core.PathQ{Fn: ck, From: first, Via: consumes,
			Target: func(in ssa.Instruction, _ *ssa.BasicBlock) bool {
				b := in.Block()
				if !l.Body[b] || in != b.Instrs[len(b.Instrs)-1] {
					return false
				}
				for _, s := range b.Succs {
					if s == l.Header {
						return true
					}
				}
				return false
			}}.Escape()
		c.Check(esc == nil, "C19/each-entry-matched-once", "baseProcessor.checkHeaderBodyCorrelation", first.Pos(),
			"every iteration of the body loop that passes the header-index lookup updates the index it was matched against before the next iteration: an entry cannot be matched twice",
			"an iteration of the body loop reaches the next one without updating the index its miniblock was matched against ("+c.P.PathString(path)+"): the per-miniblock tests are independent of each other, so body [A, A] is accepted for header [A, B] (equal count, every body hash listed) although entry B is matched by no body miniblock")
	}
	if nLoops == 0 {
		c.Undecided("C19/each-entry-matched-once", "baseProcessor.checkHeaderBodyCorrelation", ck.Pos(), "no loop with an index lookup guarding an error exit: the matching idiom is not the one this rule decides")
	}
	// the index the compared entry is taken from keeps EVERY header entry: an insertion that overwrites
	// the entry stored under the same hash drops an earlier entry with that hash, whose declared
	// fields are then never compared with anything
	{
		// maps whose lookup result provides the header fields that are compared
		provides := map[ssa.Value]bool{}
		core.Instrs(ck, func(in ssa.Instruction) {
			ifi, ok := in.(*ssa.If)
			if !ok {
				return
			}
			for x := range core.BackwardReachPure(ifi.Cond) {
				if _, f := core.FieldLoad(x); f != nil && isMBHField(f) {
					for y := range core.BackwardReachPure(x) {
						if lk, isLk := y.(*ssa.Lookup); isLk {
							if _, isMap := lk.X.Type().Underlying().(*types.Map); isMap {
								provides[lk.X] = true
							}
						}
					}
				}
			}
		})
		n := 0
		core.Instrs(ck, func(in ssa.Instruction) {
			mu, ok := in.(*ssa.MapUpdate)
			if !ok || !provides[mu.Map] {
				return
			}
			// only insertions of header entries (value derived from the header parameter)
			fromHeader := false
			for x := range core.BackwardReachPure(mu.Value) {
				if x == ssa.Value(ck.Params[1]) {
					fromHeader = true
				}
			}
			if !fromHeader {
				return
			}
			n++
			accum := false
			for x := range core.BackwardReachPure(mu.Value) {
				if lk, isLk := x.(*ssa.Lookup); isLk && lk.X == mu.Map {
					accum = true
				}
			}
			c.Check(accum, "C19/each-entry-matched-once", fmt.Sprintf("baseProcessor.checkHeaderBodyCorrelation/index-keeps-every-entry#%d", n), mu.Pos(),
				"a header entry is added to what is already stored under its hash",
				"a header entry is stored under its hash by overwriting what is there: of two entries with the same hash only the last is kept, and the declared type, shards and tx count of the other are never compared with the body")
		})
		if n == 0 && len(provides) > 0 {
			c.Undecided("C19/each-entry-matched-once", "baseProcessor.checkHeaderBodyCorrelation/index-keeps-every-entry", ck.Pos(), "no insertion of header entries into the index the compared entry is taken from")
		}
	}
}

type atomVal struct {
	v   ssa.Value
	val bool
}

// impliedBy lists the atomic conditions a with a value x such that (a == x) alone forces
// (v == pol): through negation, through `||` (any true disjunct makes it true) and through `&&`
// (any false conjunct makes it false).
// onlyConstBoolReturnsFrom: every return reachable from b answers the constant val.
func onlyConstBoolReturnsFrom(b *ssa.BasicBlock, val bool) bool {
	seen := map[*ssa.BasicBlock]bool{}
	var walk func(x *ssa.BasicBlock) bool
	walk = func(x *ssa.BasicBlock) bool {
		if seen[x] {
			return true
		}
		seen[x] = true
		switch t := x.Instrs[len(x.Instrs)-1].(type) {
		case *ssa.Return:
			if len(t.Results) != 1 {
				return false
			}
			cv, isC := core.ConstBool(t.Results[0])
			return isC && cv == val
		case *ssa.Panic:
			return true
		}
		for _, s := range x.Succs {
			if !walk(s) {
				return false
			}
		}
		return len(x.Succs) > 0
	}
	return walk(b)
}

func impliedBy(v ssa.Value, pol bool, depth int) []atomVal {
	if depth > 8 {
		return nil
	}
	if u, ok := v.(*ssa.UnOp); ok && u.Op == token.NOT {
		return impliedBy(u.X, !pol, depth+1)
	}
	if _, ok := v.(*ssa.Phi); ok {
		if d := core.Disjuncts(v); len(d) > 1 {
			if !pol {
				return nil
			}
			var out []atomVal
			for _, x := range d {
				out = append(out, impliedBy(x, true, depth+1)...)
			}
			return out
		}
		if cj := core.Conjuncts(v); len(cj) > 1 {
			if pol {
				return nil
			}
			var out []atomVal
			for _, x := range cj {
				out = append(out, impliedBy(x, false, depth+1)...)
			}
			return out
		}
	}
	return []atomVal{{v, pol}}
}
