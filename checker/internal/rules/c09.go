package rules

import (
	"fmt"
	"go/constant"
	"go/token"
	"strings"

	"golang.org/x/tools/go/ssa"

	"verif/checker/internal/core"
)

func init() {
	register(&Rule{
		ID:    "C09",
		Title: "State pruning never deletes nodes that a live state root needs",
		Pkgs:  []string{"data/state/storagePruningManager", "data/state/storagePruningManager/evictionWaitingList", "data/state", "data/trie", "process/block"},
		Explain: "Decides the guard structure around physical deletion. (S1) every StorageManager.Remove reachable from the pruning manager is on the `ShouldKeepHash(key, identifier) == false` branch, for the same key, " +
			"with ShouldKeepHash's error checked. (S2) prune / replay of buffered operations is reached only on the `IsPruningBlocked() == false` branch of PruneTrie, and prune/removeFromDb/resolveBufferedHashes " +
			"have no other callers. (S3) no other function of the loaded packages (whole module in the thorough tier) calls StorageManager.Remove. (S4) the two scheduling sites pair operations and identifiers as reviewed: " +
			"updateStateStorage: CancelPrune(x, NewRoot) dominates PruneTrie(x, OldRoot) on the same x; PruneStateOnRollback: CancelPrune(prev, OldRoot) dominates PruneTrie(curr, NewRoot) where (curr, prev) are " +
			"results 0 and 1 of getRootHashes, which returns (current-header root, previous-header root). Swapping an identifier or a root prunes a live state. " +
			"An entry of the eviction waiting list is passed over by ShouldKeepHash without the membership lookup only while identifier == OldRoot. " +
			"Every call of AccountsDB into the storage pruning manager runs with mutOp write-locked. " +
			"Not decided (value-level): the bookkeeping of old/new hash sets across histories, eviction-waiting-list cache/DB spill.",
		Run: runC09,
	})
}

func constIs(v ssa.Value, k constant.Value) bool {
	c, ok := v.(*ssa.Const)
	return ok && c.Value != nil && k != nil && constant.Compare(c.Value, token.EQL, k)
}

func runC09(c *core.Ctx) {
	c09PruneUnderTheAccountsLock(c)
	c09ObsoleteOnlyIfPersisted(c)
	c09EveryEntryConsulted(c)
	const spmPkg = "data/state/storagePruningManager"
	// ---- S1
	if fn := anchorM(c, spmPkg, "storagePruningManager", "removeFromDb"); fn != nil {
		rms := core.CallsIn(fn, func(in ssa.Instruction, cc *ssa.CallCommon) bool {
			return cc.IsInvoke() && cc.Method.Name() == "Remove" && core.CallDesc(cc).Recv == "StorageManager"
		})
		for i, rm := range rms {
			c.Sites++
			name := fmt.Sprintf("storagePruningManager.removeFromDb/Remove#%d", i)
			cc := core.CallOf(rm)
			ok, why := false, "no dominating `ShouldKeepHash(...) == false` test"
			for _, cd := range core.CondsAt(rm.Block()) {
				ex, isEx := cd.V.(*ssa.Extract)
				if !isEx || ex.Index != 0 || cd.Taken {
					continue
				}
				call, isCall := ex.Tuple.(*ssa.Call)
				if !isCall || !isInvoke(&call.Call, "ShouldKeepHash") {
					continue
				}
				// same key
				arg := cc.Args[0]
				if cv, isConv := arg.(*ssa.Convert); isConv {
					arg = cv.X
				}
				if arg != call.Call.Args[0] {
					why = "ShouldKeepHash is asked about a different key than the one removed"
					continue
				}
				// error checked
				ev := core.ErrResult(call)
				if ev == nil || !core.KnownNil(ev, core.CondsAt(rm.Block())) {
					why = "the error of ShouldKeepHash is not checked before removing"
					continue
				}
				// identifier derives from the root hash being pruned
				if !core.FlowsFrom(call.Call.Args[1], fn.Params[1]) {
					why = "the identifier passed to ShouldKeepHash does not derive from the root hash being pruned"
					continue
				}
				ok = true
			}
			c.Check(ok, "C09/remove-guarded-by-should-keep", name, rm.Pos(), "Remove(key) only when ShouldKeepHash(key, identifier) returned (false, nil)", why+": a node still needed by a live root can be deleted")
		}
		c.Floor("C09/remove-guarded-by-should-keep", 1)
	}
	// ---- S2
	if fn := anchorM(c, spmPkg, "storagePruningManager", "PruneTrie"); fn != nil {
		n := 0
		for _, in := range core.CallsIn(fn, func(in ssa.Instruction, cc *ssa.CallCommon) bool {
			d := core.CallDesc(cc)
			return d.Is(spmPkg, "storagePruningManager", "prune") || d.Is(spmPkg, "storagePruningManager", "resolveBufferedHashes")
		}) {
			n++
			ok := false
			for _, cd := range core.CondsAt(in.Block()) {
				if call, isCall := cd.V.(*ssa.Call); isCall && isInvoke(&call.Call, "IsPruningBlocked") && !cd.Taken {
					ok = true
				}
			}
			c.Check(ok, "C09/no-prune-while-blocked", fmt.Sprintf("storagePruningManager.PruneTrie/%s", core.CallDesc(core.CallOf(in)).Name), in.Pos(),
				"reached only when IsPruningBlocked() is false", "pruning is reachable while snapshots/checkpoints block it: nodes being snapshotted can be deleted")
		}
		c.Floor("C09/no-prune-while-blocked", 2)
	}
	callersAllowed := map[string]map[string]bool{
		"prune":                 {"storagePruningManager.PruneTrie": true, "storagePruningManager.resolveBufferedHashes": true},
		"resolveBufferedHashes": {"storagePruningManager.PruneTrie": true},
		"removeFromDb":          {"storagePruningManager.prune": true},
	}
	for _, fn := range c.P.FuncsOfPkg(spmPkg) {
		for _, in := range core.CallsIn(fn, func(in ssa.Instruction, cc *ssa.CallCommon) bool {
			d := core.CallDesc(cc)
			return d.Pkg == core.PkgPath(spmPkg) && d.Recv == "storagePruningManager" && callersAllowed[d.Name] != nil
		}) {
			callee := core.CallDesc(core.CallOf(in)).Name
			c.Check(callersAllowed[callee][fname(fn)], "C09/prune-callers", fmt.Sprintf("%s→%s", fname(fn), callee), in.Pos(),
				"reviewed caller", "new caller of "+callee+": bypasses the IsPruningBlocked test in PruneTrie")
		}
	}
	c.Floor("C09/prune-callers", 4)
	// ---- S3 who-may-call StorageManager.Remove
	nRm := 0
	for _, fn := range c.P.SrcFuncs() {
		for _, in := range core.CallsIn(fn, func(in ssa.Instruction, cc *ssa.CallCommon) bool {
			return cc.IsInvoke() && cc.Method.Name() == "Remove" && core.CallDesc(cc).Recv == "StorageManager" && core.CallDesc(cc).Pkg == core.PkgPath("data")
		}) {
			nRm++
			c.Check(fname(fn) == "storagePruningManager.removeFromDb", "C09/only-pruning-manager-removes", core.QualName(fn), in.Pos(),
				"the only caller of StorageManager.Remove", "trie DB entries are removed outside storagePruningManager.removeFromDb, without the ShouldKeepHash guard")
		}
	}
	c.Floor("C09/only-pruning-manager-removes", 1)
	// ---- S4 scheduling sites
	oldRoot := c.P.Const("data", "OldRoot")
	newRoot := c.P.Const("data", "NewRoot")
	if oldRoot == nil || newRoot == nil {
		c.Undecided("anchor", "data.OldRoot/NewRoot", 0, "constants not found")
		return
	}
	type site struct {
		fn                  string
		cancelID, pruneID   constant.Value
		cancelIDn, pruneIDn string
	}
	for _, s := range []site{
		{"updateStateStorage", newRoot.Val(), oldRoot.Val(), "NewRoot", "OldRoot"},
		{"PruneStateOnRollback", oldRoot.Val(), newRoot.Val(), "OldRoot", "NewRoot"},
	} {
		fn := anchorM(c, "process/block", "baseProcessor", s.fn)
		if fn == nil {
			continue
		}
		prunes := core.CallsIn(fn, func(in ssa.Instruction, cc *ssa.CallCommon) bool { return isInvoke(cc, "PruneTrie") })
		cancels := core.CallsIn(fn, func(in ssa.Instruction, cc *ssa.CallCommon) bool { return isInvoke(cc, "CancelPrune") })
		if len(prunes) == 0 || len(cancels) == 0 {
			c.Fail("C09/schedule-pairs-identifiers", "baseProcessor."+s.fn, fn.Pos(), "the CancelPrune/PruneTrie pair is gone")
			continue
		}
		for i, p := range prunes {
			pc := core.CallOf(p)
			name := fmt.Sprintf("baseProcessor.%s/PruneTrie#%d", s.fn, i)
			if !constIs(pc.Args[1], s.pruneID) {
				c.Fail("C09/schedule-pairs-identifiers", name, p.Pos(), "PruneTrie is not called with data."+s.pruneIDn)
				continue
			}
			var match ssa.Instruction
			for _, cn := range cancels {
				cnc := core.CallOf(cn)
				if constIs(cnc.Args[1], s.cancelID) && core.DominatesInstr(cn, p) {
					match = cn
				}
			}
			if match == nil {
				c.Fail("C09/schedule-pairs-identifiers", name, p.Pos(), "no dominating CancelPrune(…, data."+s.cancelIDn+") before PruneTrie(…, data."+s.pruneIDn+")")
				continue
			}
			mc := core.CallOf(match)
			ok, why := true, ""
			if s.fn == "updateStateStorage" {
				if mc.Args[0] != pc.Args[0] {
					ok, why = false, "CancelPrune and PruneTrie are not applied to the same root hash"
				}
			} else {
				e0, ok0 := pc.Args[0].(*ssa.Extract)
				e1, ok1 := mc.Args[0].(*ssa.Extract)
				if !ok0 || !ok1 || e0.Tuple != e1.Tuple || e0.Index != 0 || e1.Index != 1 {
					ok, why = false, "PruneTrie must take result 0 (current root) and CancelPrune result 1 (previous root) of the same getRootHashes call"
				} else if call, isCall := e0.Tuple.(*ssa.Call); !isCall || core.CallDesc(&call.Call).Name != "getRootHashes" {
					ok, why = false, "the roots do not come from getRootHashes"
				}
			}
			c.Check(ok, "C09/schedule-pairs-identifiers", name, p.Pos(), "CancelPrune(…, "+s.cancelIDn+") then PruneTrie(…, "+s.pruneIDn+") on the reviewed roots", why)
			// nothing is scheduled when the state root did not change: the "old" hashes of an unchanged root were recorded by the NEXT block's commit
			unchangedSkipped := false
			for _, f := range core.FactsAt(p.Block()) {
				if f.Op == "T" && strings.HasPrefix(f.A, "!bytes.Equal(") {
					unchangedSkipped = true
				}
			}
			c.Check(unchangedSkipped, "C09/schedule-pairs-identifiers", name+"/only-if-root-changed", p.Pos(), "pruning is scheduled only when the two root hashes differ",
				"pruning is scheduled even when the state root did not change: the hashes recorded under that root belong to the following block, and a rollback of that block leaves the current state unreadable")
		}
	}
	if fn := anchorM(c, "process/block", "baseProcessor", "getRootHashes"); fn != nil {
		for i, r := range core.Returns(fn) {
			r0, r1 := core.RetOperand(r, 0), core.RetOperand(r, 1)
			name := fmt.Sprintf("baseProcessor.getRootHashes/return#%d", i)
			_, lit0 := r0.(*ssa.Slice)
			if call, ok := r0.(*ssa.Call); !ok {
				c.Check(lit0, "C09/schedule-pairs-identifiers", name, r.Pos(), "default: empty roots", "unrecognised return shape")
				continue
			} else {
				call1, ok1 := r1.(*ssa.Call)
				good := ok1 && call.Call.IsInvoke() && call1.Call.IsInvoke() && call.Call.Value == ssa.Value(fn.Params[1]) && call1.Call.Value == ssa.Value(fn.Params[2]) &&
					call.Call.Method == call1.Call.Method
				c.Check(good, "C09/schedule-pairs-identifiers", name, r.Pos(), "returns (current header's root, previous header's root) from the same accessor",
					"getRootHashes does not return (currHeader root, prevHeader root) through the same accessor: the rollback prunes the wrong state")
			}
		}
	}
	c.Floor("C09/schedule-pairs-identifiers", 4)

	// ---- S5 the list of obsolete data-trie hashes handed to the eviction list is consumed once:
	// Commit drops it on every success path (a stale entry would mark a re-created, live data trie for pruning)
	if fn := anchorM(c, "data/state", "AccountsDB", "Commit"); fn != nil {
		fld := c.P.Field("data/state", "AccountsDB", "obsoleteDataTrieHashes")
		mustPass(c, fn, "C09/obsolete-hashes-consumed-once", "AccountsDB.Commit", nil, func(in ssa.Instruction) bool {
			st, ok := in.(*ssa.Store)
			if !ok {
				return false
			}
			fa, ok := st.Addr.(*ssa.FieldAddr)
			if !ok || core.FieldOfAddr(fa) != fld {
				return false
			}
			_, fresh := st.Val.(*ssa.MakeMap)
			return fresh
		}, core.SuccessReturn, nil, "obsoleteDataTrieHashes is replaced by an empty map before Commit reports success")
	}
}

// c09ObsoleteOnlyIfPersisted: the trie reports a node's hash as obsolete (to be pruned once the old
// root is dropped) only where that node is known not to be dirty, i.e. it is the persisted version
// that this very operation replaces. A hash reported on a path where the node may be dirty, or
// through a disjunction that lets a live persisted node through, deletes nodes the new root needs.
func c09ObsoleteOnlyIfPersisted(c *core.Ctx) {
	const pkg = "data/trie"
	n := 0
	for _, fn := range c.P.FuncsOfPkg(pkg) {
		// the mutation walk: insert*/delete* (getAllHashes and friends collect hashes for other purposes)
		if !(strings.HasPrefix(fn.Name(), "insert") || strings.HasPrefix(fn.Name(), "delete")) {
			continue
		}
		k := 0
		core.Instrs(fn, func(in ssa.Instruction) {
			call, ok := in.(*ssa.Call)
			if !ok {
				return
			}
			b, isB := call.Call.Value.(*ssa.Builtin)
			if !isB || b.Name() != "append" || len(call.Call.Args) != 2 {
				return
			}
			sl, isSl := call.Call.Args[1].(*ssa.Slice)
			if !isSl {
				return
			}
			al, isAl := sl.X.(*ssa.Alloc)
			if !isAl || al.Referrers() == nil {
				return
			}
			// the single appended value
			var val ssa.Value
			for _, r := range *al.Referrers() {
				if ia, ok := r.(*ssa.IndexAddr); ok && ia.Referrers() != nil {
					for _, rr := range *ia.Referrers() {
						if st, ok := rr.(*ssa.Store); ok {
							val = st.Val
						}
					}
				}
			}
			if val == nil {
				return
			}
			// whose hash?
			var owner ssa.Value
			if base, f := core.FieldLoad(val); f != nil && f.Name() == "hash" {
				owner = base
			} else if hc, ok := val.(*ssa.Call); ok && hc.Call.IsInvoke() && hc.Call.Method.Name() == "getHash" {
				owner = hc.Call.Value
			}
			if owner == nil {
				return
			}
			ownerKey := core.ExprKey(owner)
			k++
			n++
			c.Analysed(fname(fn))
			clean := false
			for _, cd := range core.CondsAt(call.Block()) {
				if cd.Taken {
					continue
				}
				if base, f := core.FieldLoad(cd.V); f != nil && f.Name() == "dirty" && core.ExprKey(base) == ownerKey {
					clean = true
				}
				if dc, ok := cd.V.(*ssa.Call); ok && dc.Call.IsInvoke() && dc.Call.Method.Name() == "isDirty" && core.ExprKey(dc.Call.Value) == ownerKey {
					clean = true
				}
			}
			c.Check(clean, "C09/obsolete-only-if-persisted", fmt.Sprintf("%s/obsolete-hash#%d", fname(fn), k), call.Pos(),
				"the hash is reported obsolete only where its node is known not to be dirty",
				"the hash of "+ownerKey+" is reported obsolete on a path where the node is not known to be the persisted (non-dirty) version being replaced: pruning the previous root then deletes a node the current root still references")
		})
	}
	c.Floor("C09/obsolete-only-if-persisted", 4)
}

// c09EveryEntryConsulted: ShouldKeepHash protects a hash when ANY waiting entry still lists it.
// The only entries it may pass over without looking the hash up are the old-hashes entries while
// old hashes are being pruned (`entry is OldRoot && identifier == OldRoot`): a pass of the loop
// that reaches the next entry without the membership lookup went through an edge on which
// `identifier == data.OldRoot` is known. Skipping old-hashes entries for a NewRoot prune (rollback)
// deletes nodes an older, not yet pruned root still owns.
func c09EveryEntryConsulted(c *core.Ctx) {
	const pkg = "data/state/storagePruningManager/evictionWaitingList"
	fn := anchorM(c, pkg, "evictionWaitingList", "ShouldKeepHash")
	if fn == nil || len(fn.Params) < 3 {
		return
	}
	oldC := c.P.Const("data", "OldRoot")
	if oldC == nil {
		c.Undecided("anchor", "data.OldRoot", fn.Pos(), "constant not found")
		return
	}
	oldV, _ := constInt64(oldC)
	var loop *core.Loop
	for _, l := range core.Loops(fn) {
		if src := l.RangeSource(); src != nil && isFieldOf(src, "cache") {
			loop = l
		}
	}
	if loop == nil {
		c.Undecided("C09/every-entry-consulted", "evictionWaitingList.ShouldKeepHash", fn.Pos(), "no loop over the cache of waiting entries")
		return
	}
	lookup := func(in ssa.Instruction) bool {
		lk, ok := in.(*ssa.Lookup)
		return ok && lk.Index == ssa.Value(fn.Params[1])
	}
	forOld := func(b *ssa.BasicBlock, si int) bool {
		ifi, ok := b.Instrs[len(b.Instrs)-1].(*ssa.If)
		if !ok {
			return false
		}
		bo, ok := ifi.Cond.(*ssa.BinOp)
		if !ok || (bo.Op != token.EQL && bo.Op != token.NEQ) {
			return false
		}
		isOld := func(v ssa.Value) bool { n, ok := core.ConstInt(v); return ok && n == oldV }
		if !((bo.X == ssa.Value(fn.Params[2]) && isOld(bo.Y)) || (bo.Y == ssa.Value(fn.Params[2]) && isOld(bo.X))) {
			return false
		}
		return (bo.Op == token.EQL) == (si == 0)
	}
	esc, path := core.PathQ{Fn: fn, FromBlk: firstBodyBlock(loop), Via: lookup, ViaEdge: forOld,
		Target: func(in ssa.Instruction, _ *ssa.BasicBlock) bool { return in == loop.Header.Instrs[0] }}.Escape()
	c.Check(esc == nil, "C09/every-entry-consulted", "evictionWaitingList.ShouldKeepHash", fn.Pos(),
		"an entry is passed over without the membership lookup only while identifier == OldRoot",
		"a waiting entry can be passed over without looking the hash up although the identifier is not known to be OldRoot ("+c.P.PathString(path)+"): when a rolled-back block's new hashes are pruned, nodes that an older, not yet pruned root still lists among its old hashes are not protected and get deleted")
}

// c09PruneUnderTheAccountsLock: "this hash is not needed any more -> delete it" is atomic with
// respect to Commit only because both run under the accounts db's operation mutex: every call into
// the storage pruning manager from AccountsDB happens with mutOp write-locked.
func c09PruneUnderTheAccountsLock(c *core.Ctx) {
	const pkg = "data/state"
	mu := c.P.Field(pkg, "AccountsDB", "mutOp")
	if mu == nil {
		c.Undecided("anchor", "AccountsDB.mutOp", 0, "field not found")
		return
	}
	var fns []*ssa.Function
	for _, f := range c.P.FuncsOfPkg(pkg) {
		if f.Signature.Recv() != nil && strings.HasSuffix(f.Signature.Recv().Type().String(), "state.AccountsDB") {
			fns = append(fns, f)
		}
	}
	entry := core.EntryModes(fns, mu)
	n := 0
	for _, f := range fns {
		modes := core.LockModes(f, mu, entry[f])
		core.Instrs(f, func(in ssa.Instruction) {
			cc := core.CallOf(in)
			if cc == nil || !cc.IsInvoke() {
				return
			}
			if _, fld := core.FieldLoad(cc.Value); fld == nil || fld.Name() != "storagePruningManager" {
				return
			}
			switch cc.Method.Name() {
			case "PruneTrie", "CancelPrune", "MarkForEviction":
			default:
				return
			}
			n++
			c.Sites++
			c.Check(modes[in] == core.ModeW, "C09/prune-under-the-accounts-lock", fname(f)+"/"+cc.Method.Name(), in.Pos(),
				"the pruning manager is called with mutOp write-locked",
				fmt.Sprintf("storagePruningManager.%s is called while mutOp is %s: a concurrent Commit can re-create a node between the pruning manager's 'not needed' answer and the delete, and the committed root loses it", cc.Method.Name(), modes[in]))
		})
	}
	c.Floor("C09/prune-under-the-accounts-lock", 3)
}
